(* Sdk/Conv.v — SDK model <-> KeyValuePair <-> server treasure <-> SDK model (model, no proofs).

   Faithful to (after the C22 repair; [sub = true] gives the code before it):
     sdk/go/hydraidego/conversions.go          convertCatalogModelToKeyValuePair,
                                               convertProtoTreasureToCatalogModel
     sdk/go/hydraidego/conversions_mapbody.go  inspectCatalogModel, encodeMapBody,
                                               decodeMapBodyInto, applyMapBodyToKvPair
     sdk/go/hydraidego/hydraidego.go           convertFieldToKvPair, isFieldEmpty,
                                               setProtoTreasureToModel,
                                               convertProfileModelToKeyValuePair,
                                               setTreasureValueToProfileModel
     app/server/gateway/gateway.go             keyValuesToTreasure, treasureToKeyValuePair

   A struct model is a list of fields (Go field name, optional hydraide tag, value).  Values
   of slices (other than []byte), maps, pointers and nested structs are opaque tokens (M4):
   their gob / msgpack encodings are the [codec] functions, abstract here, constrained by
   round-trip hypotheses in ConvProofs.v, and instantiated by a free (symbolic) codec for
   the correspondence check, where the harness decodes the observed blobs itself. *)
From HV Require Import Base.Prelude Gen.C22Consts Sdk.Tags.
Local Open Scope N_scope.

(* ---- field values ----------------------------------------------------------------------- *)

Inductive uw := U8 | U16 | U32 | U64 | UInt.
Inductive iw := I8 | I16 | I32 | I64 | IInt.
Inductive cxk := CSlice | CMap | CPtr.
Inductive cxs := SNil | SEmpty | SFull.     (* nil / non-nil of length 0 / non-empty (pointers: SNil | SFull) *)

Inductive value :=
| VStr (s : str)
| VBool (b : bool)
| VU (w : uw) (n : N)
| VI (w : iw) (z : Z)
| VF32 (bits : N)
| VF64 (bits : N)
| VBytes (st : cxs) (b : str)            (* []byte *)
| VTime (sec : Z) (ns : N)               (* time.Time as Unix seconds + nanoseconds *)
| VCx (k : cxk) (st : cxs) (tok : N)     (* other slices, maps, pointers: opaque content token *)
| VStruct (tok : N)                      (* a struct other than time.Time; token 0 = zero struct *)
| VOther (tok : N).                      (* chan / func: not encodable *)

Definition uw_eqb (a b : uw) : bool :=
  match a, b with U8,U8 | U16,U16 | U32,U32 | U64,U64 | UInt,UInt => true | _,_ => false end.
Definition iw_eqb (a b : iw) : bool :=
  match a, b with I8,I8 | I16,I16 | I32,I32 | I64,I64 | IInt,IInt => true | _,_ => false end.
Definition cxk_eqb (a b : cxk) : bool :=
  match a, b with CSlice,CSlice | CMap,CMap | CPtr,CPtr => true | _,_ => false end.
Definition cxs_eqb (a b : cxs) : bool :=
  match a, b with SNil,SNil | SEmpty,SEmpty | SFull,SFull => true | _,_ => false end.

Definition value_eqb (a b : value) : bool :=
  match a, b with
  | VStr x, VStr y => str_eqb x y
  | VBool x, VBool y => Bool.eqb x y
  | VU w x, VU w' y => uw_eqb w w' && N.eqb x y
  | VI w x, VI w' y => iw_eqb w w' && Z.eqb x y
  | VF32 x, VF32 y => N.eqb x y
  | VF64 x, VF64 y => N.eqb x y
  | VBytes s x, VBytes s' y => cxs_eqb s s' && str_eqb x y
  | VTime s n, VTime s' n' => Z.eqb s s' && N.eqb n n'
  | VCx k s t, VCx k' s' t' => cxk_eqb k k' && cxs_eqb s s' && N.eqb t t'
  | VStruct t, VStruct t' => N.eqb t t'
  | VOther t, VOther t' => N.eqb t t'
  | _, _ => false
  end.

(* Unix seconds of time.Time{} (January 1, year 1 UTC) *)
Definition zero_time_sec : Z := (-62135596800)%Z.

(* the zero value of the same Go type: what a freshly allocated read model holds *)
Definition zero_of (v : value) : value :=
  match v with
  | VStr _ => VStr []
  | VBool _ => VBool false
  | VU w _ => VU w 0
  | VI w _ => VI w 0%Z
  | VF32 _ => VF32 0
  | VF64 _ => VF64 0
  | VBytes _ _ => VBytes SNil []
  | VTime _ _ => VTime zero_time_sec 0
  | VCx k _ _ => VCx k SNil 0
  | VStruct _ => VStruct 0
  | VOther _ => VOther 0
  end.

(* isFieldEmpty (bool and plain structs are never empty; -0.0 is) *)
Definition is_empty (v : value) : bool :=
  match v with
  | VStr s => match s with [] => true | _ => false end
  | VBool _ => false
  | VU _ n => N.eqb n 0
  | VI _ z => Z.eqb z 0
  | VF32 b => N.eqb b 0 || N.eqb b 2147483648
  | VF64 b => N.eqb b 0 || N.eqb b 9223372036854775808
  | VBytes st _ => negb (cxs_eqb st SFull)
  | VTime s n => Z.eqb s zero_time_sec && N.eqb n 0
  | VCx CPtr st _ => cxs_eqb st SNil
  | VCx _ st _ => negb (cxs_eqb st SFull)
  | VStruct _ => false
  | VOther _ => false
  end.

(* "equal model" is Go equality of the fields: nil and empty slices / maps ([]byte included)
   are identified, and so are -0.0 and +0.0 (Go's == on floats; NaNs are compared by bits) *)
Definition canon (v : value) : value :=
  match v with
  | VF32 2147483648 => VF32 0
  | VF64 9223372036854775808 => VF64 0
  | VBytes SEmpty b => VBytes SNil b
  | VCx CSlice SEmpty t => VCx CSlice SNil t
  | VCx CMap SEmpty t => VCx CMap SNil t
  | _ => v
  end.

Record field := { f_name : str; f_tag : option str; f_val : value }.

(* ---- KeyValuePair ------------------------------------------------------------------------ *)

Inductive err :=
| EMixed        (* model mixes hydraide:"value" with map-body fields *)
| EKey          (* key field must be a non-empty string *)
| ENoKey        (* key field not found *)
| EType (r : role)     (* <meta> field must be a time.Time / string *)
| EZero (r : role)     (* <meta> field must be a non-zero time.Time *)
| EUnsupported  (* unsupported value type *)
| EEmpty        (* profile: every field was skipped; the server rejects an empty KeyValues list *)
| ECodec        (* gob / msgpack encode or decode error *)
| EPanic.       (* reflect panic in the decoder (SetString / Set on a field of another type) *)

Inductive res (A : Type) := Ok (a : A) | Err (e : err).
Arguments Ok {A} a.
Arguments Err {A} e.

Section Codec.
  Variable B : Type.                       (* blob: the content of BytesVal *)

  Record codec := {
    c_raw : str -> B;                                   (* []byte stored as is *)
    c_unraw : B -> str;
    c_enc : bool -> value -> option B;                  (* gob (false) / wrapped msgpack (true) of a complex value; None = encode error *)
    c_dec : B -> value -> option value;                 (* decode (format by magic prefix) into the type of the 2nd argument *)
    c_body : list (str * value) -> option B;            (* wrapped msgpack map name -> value *)
    c_body_get : B -> str -> value -> option (option value)
       (* decodeMapBodyInto for one field: None = error, Some None = key absent *)
  }.
  Variable C : codec.

  Inductive slot :=
  | SlI8 (z : Z) | SlI16 (z : Z) | SlI32 (z : Z) | SlI64 (z : Z)
  | SlU8 (n : N) | SlU16 (n : N) | SlU32 (n : N) | SlU64 (n : N)
  | SlF32 (b : N) | SlF64 (b : N) | SlStr (s : str) | SlBool (b : bool) | SlBytes (b : B).

  (* position of the slot in keyValuesToTreasure's switch *)
  Definition rank (s : slot) : N :=
    match s with
    | SlI8 _ => 0 | SlI16 _ => 1 | SlI32 _ => 2 | SlI64 _ => 3
    | SlU8 _ => 4 | SlU16 _ => 5 | SlU32 _ => 6 | SlU64 _ => 7
    | SlF32 _ => 8 | SlF64 _ => 9 | SlStr _ => 10 | SlBool _ => 11 | SlBytes _ => 12
    end.

  Inductive sname := SnKey | SnTyped (r : N) | SnVoid | SnExp | SnCBy | SnCAt | SnUBy | SnUAt.

  Definition sname_eqb (a b : sname) : bool :=
    match a, b with
    | SnKey, SnKey | SnVoid, SnVoid | SnExp, SnExp | SnCBy, SnCBy | SnCAt, SnCAt
    | SnUBy, SnUBy | SnUAt, SnUAt => true
    | SnTyped x, SnTyped y => N.eqb x y
    | _, _ => false
    end.

  Inductive payload :=
  | PStr (s : str) | PTyped (s : slot) | PBool (b : bool) | PTime (sec : Z) (ns : N)
  | PUnset.                                    (* kvPair.VoidVal = nil *)

  (* A KeyValuePair under construction: the assignments made so far, oldest first.  No branch
     of the encoder reads the pair it is building, so the list of assignments is the state. *)
  Definition kvlog := list (sname * payload).

  Definition raw_get (sn : sname) (l : kvlog) : option payload :=
    fold_left (fun acc p => if sname_eqb (fst p) sn then Some (snd p) else acc) l None.

  Definition get (sn : sname) (l : kvlog) : option payload :=
    match raw_get sn l with Some PUnset => None | x => x end.

  (* convertFieldToKvPair *)
  Definition conv_field (msgp : bool) (v : value) : res kvlog :=
    let typed s := Ok [(SnTyped (rank s), PTyped s)] in
    match v with
    | VStr s => typed (SlStr s)
    | VBool b => typed (SlBool b)
    | VU U8 n => typed (SlU8 n) | VU U16 n => typed (SlU16 n) | VU U32 n => typed (SlU32 n)
    | VU U64 n | VU UInt n => typed (SlU64 n)
    | VI I8 z => typed (SlI8 z) | VI I16 z => typed (SlI16 z) | VI I32 z => typed (SlI32 z)
    | VI I64 z | VI IInt z => typed (SlI64 z)
    | VF32 b => typed (SlF32 b)
    | VF64 b => typed (SlF64 b)
    | VBytes SNil _ => Ok []
    | VBytes _ b => typed (SlBytes (c_raw C b))
    | VCx CPtr SNil _ => Ok []
    | VCx _ _ _ => match c_enc C msgp v with Some b => typed (SlBytes b) | None => Err ECodec end
    | VTime s n => if is_empty v then Ok [] else typed (SlI64 s)
    | VStruct _ => Ok []
    | VOther _ => Err EUnsupported
    end.

  Definition is_time_role (r : role) : bool :=
    match r with RExpireAt | RCreatedAt | RUpdatedAt => true | _ => false end.

  Definition meta_sname (r : role) : sname :=
    match r with
    | RExpireAt => SnExp | RCreatedBy => SnCBy | RCreatedAt => SnCAt | RUpdatedBy => SnUBy
    | _ => SnUAt
    end.

  (* one metadata branch of the encoder *)
  Definition enc_meta (r : role) (omit : bool) (v : value) : res kvlog :=
    if omit && is_empty v then Ok []
    else if is_time_role r then
      match v with
      | VTime s n =>
          if is_empty v then (if omit then Ok [] else Err (EZero r))
          else Ok [(meta_sname r, PTime s n)]
      | _ => Err (EType r)
      end
    else
      match v with
      | VStr s => match s with [] => Ok [] | _ => Ok [(meta_sname r, PStr s)] end
      | _ => Err (EType r)
      end.

  Definition res_app (a : res kvlog) (b : res kvlog) : res kvlog :=
    match a with
    | Err e => Err e
    | Ok l => match b with Err e => Err e | Ok l' => Ok (l ++ l') end
    end.

  (* body of the encoder's loop for one field: the assignments it makes *)
  Definition enc_field (sub msgp : bool) (f : field) : res kvlog :=
    match f_tag f with
    | None => Ok []
    | Some tag =>
        let v := f_val f in
        if enc_key_test sub tag then
          match v with
          | VStr (c :: s) => Ok [(SnKey, PStr (c :: s))]
          | _ => Err EKey
          end
        else
          let meta :=
            match first_match sub tag meta_chain with
            | None => Ok []
            | Some r => enc_meta r (omit_test sub tag) v
            end in
          if tag_test sub tag_value tag then
            let void := if is_empty v then [(SnVoid, PBool true)] else [] in
            if omit_test sub tag && is_empty v then Ok void         (* continue *)
            else res_app (res_app (Ok void) (conv_field msgp v)) meta  (* no continue: falls through *)
          else meta
    end.

  Fixpoint enc_fields (sub msgp : bool) (m : list field) : res kvlog :=
    match m with
    | [] => Ok []
    | f :: t => match enc_field sub msgp f with
                | Err e => Err e
                | Ok l => match enc_fields sub msgp t with Err e => Err e | Ok l' => Ok (l ++ l') end
                end
    end.

  (* inspectCatalogModel *)
  Definition frole (f : field) : role :=
    match f_tag f with None => RNone | Some t => inspect_role t end.

  Definition fomit (f : field) : bool :=
    match f_tag f with None => false | Some t => has_omit t end.

  Definition is_body (r : role) : bool := match r with RBody _ => true | _ => false end.

  Inductive shape := ShKeyOnly | ShSingle | ShBody.

  Definition has_value (m : list field) : bool := existsb (fun f => role_eqb (frole f) RValue) m.
  Definition body_fields (m : list field) : list field := filter (fun f => is_body (frole f)) m.

  Definition inspect (m : list field) : res shape :=
    match has_value m, body_fields m with
    | true, _ :: _ => Err EMixed
    | true, [] => Ok ShSingle
    | false, _ :: _ => Ok ShBody
    | false, [] => Ok ShKeyOnly
    end.

  Definition body_name (f : field) : str := match frole f with RBody n => n | _ => [] end.

  (* encodeMapBody: entries in field order; empty omitempty fields are skipped *)
  Definition body_entries (m : list field) : list (str * value) :=
    map (fun f => (body_name f, f_val f))
        (filter (fun f => negb (fomit f && is_empty (f_val f))) (body_fields m)).

  Definition has_other (l : list (str * value)) : bool :=
    existsb (fun p => match snd p with VOther _ => true | _ => false end) l.

  (* applyMapBodyToKvPair *)
  Definition enc_body (m : list field) : res kvlog :=
    match body_entries m with
    | [] => Ok []
    | es => match c_body C es with
            | Some b => Ok [(SnTyped 12, PTyped (SlBytes b)); (SnVoid, PUnset)]
            | None => Err ECodec
            end
    end.

  (* convertCatalogModelToKeyValuePair *)
  Definition encode (sub msgp : bool) (m : list field) : res kvlog :=
    match inspect m with
    | Err e => Err e
    | Ok sh =>
        match enc_fields sub msgp m with
        | Err e => Err e
        | Ok l =>
            match (match sh with ShBody => enc_body m | _ => Ok [] end) with
            | Err e => Err e
            | Ok lb =>
                let kv := l ++ lb in
                match get SnKey kv with
                | Some (PStr (_ :: _)) => Ok kv
                | _ => Err ENoKey
                end
            end
        end
    end.

  (* ---- server: keyValuesToTreasure, then treasureToKeyValuePair ---------------------------- *)

  Definition all_ranks : list N := [0;1;2;3;4;5;6;7;8;9;10;11;12].

  (* first non-nil typed slot in switch order; None = void *)
  Definition pick_content (kv : kvlog) : option slot :=
    fold_right (fun r acc => match get (SnTyped r) kv with Some (PTyped s) => Some s | _ => acc end)
               None all_ranks.

  Definition wrap64 (z : Z) : Z := ((z + 9223372036854775808) mod 18446744073709551616 - 9223372036854775808)%Z.

  Definition max_int64 : Z := 9223372036854775807%Z.
  Definition min_int64 : Z := (-9223372036854775808)%Z.

  (* isValidTimestamp (seconds > 0 or nanos > 0), then
     createdAt / updatedAt: SetCreatedAt / SetModifiedAt = AsTime().UnixNano(), which wraps;
     expireAt: SetExpirationTime saturates instants outside the int64-nanosecond range. *)
  Definition ts_valid (s : Z) (n : N) : bool := (0 <? s)%Z || (0 <? n).

  Definition server_time (p : option payload) : Z :=
    match p with
    | Some (PTime s n) =>
        if ts_valid s n then wrap64 (s * 1000000000 + Z.of_N n)%Z else 0%Z
    | _ => 0%Z
    end.

  Definition server_exp (p : option payload) : Z :=
    match p with
    | Some (PTime s n) =>
        if ts_valid s n then
          let z := (s * 1000000000 + Z.of_N n)%Z in
          if (max_int64 <? z)%Z then max_int64 else if (z <? min_int64)%Z then min_int64 else z
        else 0%Z
    | _ => 0%Z
    end.
  Definition server_by (p : option payload) : str :=
    match p with Some (PStr s) => s | _ => [] end.

  Record treasure := {
    t_key : str; t_content : option slot;
    t_exp : Z; t_cby : str; t_cat : Z; t_uby : str; t_uat : Z }.

  Definition kv_key (kv : kvlog) : str := match get SnKey kv with Some (PStr s) => s | _ => [] end.

  Definition server_set (kv : kvlog) : treasure :=
    {| t_key := kv_key kv; t_content := pick_content kv;
       t_exp := server_exp (get SnExp kv); t_cby := server_by (get SnCBy kv);
       t_cat := server_time (get SnCAt kv); t_uby := server_by (get SnUBy kv);
       t_uat := server_time (get SnUAt kv) |}.

  (* treasureToKeyValuePair: createdAt / updatedAt are reported when the int64 nanoseconds are > 0,
     expireAt whenever they are <> 0; time.Unix(0, n) -> timestamppb (floor seconds, nanos >= 0) *)
  Definition pb_split (n : Z) : Z * N := ((n / 1000000000)%Z, Z.to_N (n mod 1000000000)%Z).
  Definition pb_time (n : Z) : option (Z * N) := if (0 <? n)%Z then Some (pb_split n) else None.
  Definition pb_exp (n : Z) : option (Z * N) := if (n =? 0)%Z then None else Some (pb_split n).
  Definition pb_by (s : str) : option str := match s with [] => None | _ => Some s end.

  (* ---- decoder ----------------------------------------------------------------------------- *)

  (* setProtoTreasureToModel: the treasure's content into a field currently holding [cur] *)
  Definition set_from (content : option slot) (cur : value) : res value :=
    match content with
    | None => Ok cur
    | Some s =>
        match s, cur with
        | SlStr x, VStr _ => Ok (VStr x)
        | SlU8 n, VU U8 _ => Ok (VU U8 n)
        | SlU16 n, VU U16 _ => Ok (VU U16 n)
        | SlU32 n, VU U32 _ => Ok (VU U32 n)
        | SlU64 n, VU U64 _ => Ok (VU U64 n)
        | SlU64 n, VU UInt _ => Ok (VU UInt n)
        | SlI8 z, VI I8 _ => Ok (VI I8 z)
        | SlI16 z, VI I16 _ => Ok (VI I16 z)
        | SlI32 z, VI I32 _ => Ok (VI I32 z)
        | SlI64 z, VI I64 _ => Ok (VI I64 z)
        | SlI64 z, VI IInt _ => Ok (VI IInt z)
        | SlI64 z, VTime _ _ => Ok (VTime z 0)          (* time.Unix(z, 0) *)
        | SlF32 b, VF32 _ => Ok (VF32 b)
        | SlF64 b, VF64 _ => Ok (VF64 b)
        | SlBool b, VBool _ => Ok (VBool b)
        | SlBytes b, VBytes _ _ =>
            let x := c_unraw C b in
            Ok (VBytes (match x with [] => SEmpty | _ => SFull end) x)
        | SlBytes b, VCx _ _ _ =>
            match c_dec C b cur with Some v => Ok v | None => Err ECodec end
        | _, _ => Ok cur                                  (* silently skipped *)
        end
    end.

  Definition content_bytes (content : option slot) : option B :=
    match content with Some (SlBytes b) => Some b | _ => None end.

  (* decodeMapBodyInto for one field of a map-body model *)
  Definition dec_body_field (t : treasure) (f : field) (cur : value) : res value :=
    match content_bytes (t_content t) with
    | None => Ok cur
    | Some b =>
        match c_body_get C b (body_name f) cur with
        | None => Err ECodec
        | Some None => Ok cur
        | Some (Some v) => Ok v
        end
    end.

  (* one iteration of the decoder's loop *)
  Definition dec_reserved (sub : bool) (t : treasure) (f : field) (cur : value) : res value :=
    match f_tag f with
    | None => Ok cur
    | Some tag =>
        match dec_role sub tag with
        | Some RKey => match cur with VStr _ => Ok (VStr (t_key t)) | _ => Err EPanic end
        | Some RValue => set_from (t_content t) cur
        | Some RCreatedBy =>
            match pb_by (t_cby t) with
            | None => Ok cur
            | Some s => match cur with VStr _ => Ok (VStr s) | _ => Err EPanic end
            end
        | Some RUpdatedBy =>
            match pb_by (t_uby t) with
            | None => Ok cur
            | Some s => match cur with VStr _ => Ok (VStr s) | _ => Err EPanic end
            end
        | Some r =>
            let p := match r with
                     | RExpireAt => pb_exp (t_exp t)
                     | RCreatedAt => pb_time (t_cat t)
                     | _ => pb_time (t_uat t)
                     end in
            match p with
            | None => Ok cur
            | Some (s, ns) => match cur with VTime _ _ => Ok (VTime s ns) | _ => Err EPanic end
            end
        | None => Ok cur
        end
    end.

  (* convertProtoTreasureToCatalogModel into a fresh model of the same struct type *)
  Definition dec_field (sub : bool) (sh : res shape) (t : treasure) (f : field) : res value :=
    let cur := zero_of (f_val f) in
    let after_body :=
      match sh with
      | Ok ShBody => if is_body (frole f) then dec_body_field t f cur else Ok cur
      | _ => Ok cur
      end in
    match after_body with
    | Err e => Err e
    | Ok v => dec_reserved sub t f v
    end.

  Fixpoint res_map {A Bv} (g : A -> res Bv) (l : list A) : res (list Bv) :=
    match l with
    | [] => Ok []
    | x :: t => match g x with
                | Err e => Err e
                | Ok y => match res_map g t with Err e => Err e | Ok ys => Ok (y :: ys) end
                end
    end.

  Definition decode (sub : bool) (t : treasure) (m : list field) : res (list value) :=
    res_map (dec_field sub (inspect m) t) m.

  (* CatalogSave then CatalogRead into a fresh model *)
  Definition save_read (sub msgp : bool) (m : list field) : res (list value) :=
    match encode sub msgp m with
    | Err e => Err e
    | Ok kv => decode sub (server_set kv) m
    end.

  (* ---- profiles ----------------------------------------------------------------------------- *)

  (* strings.Split(tag, ",") contains the exact element (no trimming, any position) *)
  Definition has_part (p : str) (f : field) : bool :=
    match f_tag f with None => false | Some t => existsb (str_eqb p) (split_comma t) end.

  Definition tag_deletable : str := [100;101;108;101;116;97;98;108;101].

  (* convertProfileModelToKeyValuePair: one KeyValuePair per saved field, keyed by field name *)
  Definition prof_skipped (f : field) : bool :=
    is_empty (f_val f) && (has_part tag_deletable f || has_part tag_omitempty f).

  Definition enc_profile (msgp : bool) (m : list field) : res (list (str * kvlog)) :=
    match res_map (fun f => match conv_field msgp (f_val f) with
                            | Err e => Err e
                            | Ok l => Ok (f_name f, (SnKey, PStr (f_name f)) :: l)
                            end)
                  (filter (fun f => negb (prof_skipped f)) m) with
    | Ok [] => Err EEmpty
    | x => x
    end.

  Fixpoint assoc_str {A} (n : str) (l : list (str * A)) : option A :=
    match l with
    | [] => None
    | (k, x) :: t => if str_eqb n k then Some x else assoc_str n t
    end.

  (* ProfileSave into an empty swamp followed by ProfileRead into a fresh model *)
  Definition prof_save_read (msgp : bool) (m : list field) : res (list value) :=
    match enc_profile msgp m with
    | Err e => Err e
    | Ok kvs =>
        res_map (fun f =>
                   match assoc_str (f_name f) kvs with
                   | None => Ok (zero_of (f_val f))
                   | Some kv => set_from (pick_content kv) (zero_of (f_val f))
                   end) m
    end.

  (* ---- observable form of a KeyValuePair ------------------------------------------------------ *)

  Definition all_snames : list sname :=
    SnKey :: map SnTyped all_ranks ++ [SnVoid; SnExp; SnCBy; SnCAt; SnUBy; SnUAt].

  Definition normalize (kv : kvlog) : kvlog :=
    flat_map (fun sn => match get sn kv with Some p => [(sn, p)] | None => [] end) all_snames.

End Codec.

Arguments Ok {A} a.
Arguments Err {A} e.
