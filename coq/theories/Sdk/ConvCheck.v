(* Sdk/ConvCheck.v — executable case checker for the C22 correspondence (no proofs).

   The abstract codec of Sdk/Conv.v is instantiated by a free, symbolic one: a blob is the
   term it was built from.  The harness decodes every observed BytesVal itself (gob / msgpack
   of the Go libraries) and reports the interpretations that hold ("these bytes gob-decode to
   the value of field 3", "these bytes are a msgpack map whose entry `title` decodes to the
   value of field 2"), so the codec hypotheses of ConvProofs.v are validated on every case. *)
From HV Require Export Base.Prelude Gen.C22Consts Sdk.Tags Sdk.Conv.
Local Open Scope N_scope.

Inductive sblob :=
| BRaw (b : str)                         (* the bytes themselves *)
| BEnc (msgp : bool) (v : value)         (* gob / wrapped-msgpack encoding of (canon v) *)
| BBody (l : list (str * value))         (* wrapped msgpack map, entries sorted by name *)
| BObs (interps : list sblob).           (* observed bytes: every interpretation the harness verified *)

Fixpoint str_leb (a b : str) : bool :=
  match a, b with
  | [], _ => true
  | _ :: _, [] => false
  | x :: a', y :: b' => if N.ltb x y then true else if N.eqb x y then str_leb a' b' else false
  end.

(* Go map semantics: a later entry with the same name replaces the earlier one *)
Fixpoint body_insert (n : str) (v : value) (l : list (str * value)) : list (str * value) :=
  match l with
  | [] => [(n, v)]
  | (k, x) :: t =>
      if str_eqb n k then (n, v) :: t
      else if str_leb n k then (n, v) :: l
      else (k, x) :: body_insert n v t
  end.

Definition body_norm (es : list (str * value)) : list (str * value) :=
  fold_left (fun acc p => body_insert (fst p) (canon (snd p)) acc) es [].

Definition same_kind (a b : value) : bool := value_eqb (zero_of a) (zero_of b).

Definition is_other (v : value) : bool := match v with VOther _ => true | _ => false end.

Definition sym : codec sblob :=
  {| c_raw := BRaw;
     c_unraw := fun b => match b with BRaw x => x | _ => [] end;
     c_enc := fun msgp v => if is_other v then None else Some (BEnc msgp (canon v));
     c_dec := fun b cur => match b with
                           | BEnc _ v => if same_kind v cur then Some v else None
                           | _ => None
                           end;
     (* the entries go through a Go map first (a later entry of the same name replaces the
        earlier one); only what is left is marshalled, so only that can fail *)
     c_body := fun es => let n := body_norm es in
                         if existsb (fun p => is_other (snd p)) n then None else Some (BBody n);
     c_body_get := fun b n cur =>
        match b with
        | BBody l => match assoc_str n l with
                     | None => Some None
                     | Some v => if same_kind v cur then Some (Some v) else None
                     end
        | _ => None
        end |}.

(* ---- equality tests ------------------------------------------------------------------------- *)

Fixpoint body_eqb (a b : list (str * value)) : bool :=
  match a, b with
  | [], [] => true
  | (n, v) :: a', (n', v') :: b' => str_eqb n n' && value_eqb v v' && body_eqb a' b'
  | _, _ => false
  end.

Definition sblob_eqb1 (a b : sblob) : bool :=
  match a, b with
  | BRaw x, BRaw y => str_eqb x y
  | BEnc m v, BEnc m' v' => Bool.eqb m m' && value_eqb v v'
  | BBody l, BBody l' => body_eqb l l'
  | _, _ => false
  end.

(* model blob (never BObs) against an observed one *)
Definition sblob_eqb (model observed : sblob) : bool :=
  match observed with
  | BObs l => existsb (sblob_eqb1 model) l
  | _ => sblob_eqb1 model observed
  end.

Definition slot_eqb (a b : slot sblob) : bool :=
  match a, b with
  | SlI8 _ x, SlI8 _ y | SlI16 _ x, SlI16 _ y | SlI32 _ x, SlI32 _ y | SlI64 _ x, SlI64 _ y => Z.eqb x y
  | SlU8 _ x, SlU8 _ y | SlU16 _ x, SlU16 _ y | SlU32 _ x, SlU32 _ y | SlU64 _ x, SlU64 _ y => N.eqb x y
  | SlF32 _ x, SlF32 _ y | SlF64 _ x, SlF64 _ y => N.eqb x y
  | SlStr _ x, SlStr _ y => str_eqb x y
  | SlBool _ x, SlBool _ y => Bool.eqb x y
  | SlBytes _ x, SlBytes _ y => sblob_eqb x y
  | _, _ => false
  end.

Definition payload_eqb (a b : payload sblob) : bool :=
  match a, b with
  | PStr _ x, PStr _ y => str_eqb x y
  | PTyped _ x, PTyped _ y => slot_eqb x y
  | PBool _ x, PBool _ y => Bool.eqb x y
  | PTime _ s n, PTime _ s' n' => Z.eqb s s' && N.eqb n n'
  | PUnset _, PUnset _ => true
  | _, _ => false
  end.

Definition kv_eqb (model observed : kvlog sblob) : bool :=
  list_eqb (fun p q => sname_eqb (fst p) (fst q) && payload_eqb (snd p) (snd q))
           (normalize sblob model) observed.

Definition err_eqb (a b : err) : bool :=
  match a, b with
  | EMixed, EMixed | EKey, EKey | ENoKey, ENoKey | EUnsupported, EUnsupported | EEmpty, EEmpty
  | ECodec, ECodec | EPanic, EPanic => true
  | EType r, EType r' | EZero r, EZero r' => role_eqb r r'
  | _, _ => false
  end.

(* ---- cases ------------------------------------------------------------------------------------ *)

Inductive obs_save :=
| SaveErr (e : err)
| SaveOk (kv : kvlog sblob)                       (* the KeyValuePair CatalogSave sent *)
| SaveProf (l : list (str * kvlog sblob)).        (* the KeyValuePairs ProfileSave sent *)

Inductive obs_read :=
| ReadVals (l : list value)
| ReadErr
| ReadPanic.

Inductive obs_inspect :=
| InspErr
| InspOk (sh : N) (body : list (str * bool)).    (* shape 0 key-only, 1 single value, 2 map body; (name, omitempty) *)

Inductive case :=
| CSaveRead (api : N) (msgp : bool) (m : list field) (s : obs_save) (r : obs_read)
    (* api 0: CatalogSave+CatalogRead, 1: CatalogSave+CatalogReadMany, 2: ProfileSave+ProfileRead,
       3: CatalogCreate+CatalogRead (same converter, Set without overwrite into a fresh swamp) *)
| CDecode (t : treasure sblob) (m : list field) (r : obs_read)
| CInspect (m : list field) (o : obs_inspect).

Definition vals_eqb (a b : list value) : bool :=
  list_eqb value_eqb (map canon a) (map canon b).

Definition read_matches (model : res (list value)) (o : obs_read) : bool :=
  match model, o with
  | Ok l, ReadVals l' => vals_eqb l l'
  | Err EPanic, ReadPanic => true
  | Err ECodec, ReadErr => true
  | _, _ => false
  end.

(* ---- the property oracle ------------------------------------------------------------------------

   A field takes part in the persisted model when some reader gives it a role (catalog), or
   always (profile).  For those fields the read-back value must equal the saved one up to
   [canon].  The classes below are the differences that are already recorded as findings;
   anything else is reported under the generic signature. *)

Definition count_role (r : role) (m : list field) : nat :=
  length (filter (fun f => role_eqb (frole f) r) m).

Fixpoint nodup_strs (l : list str) : bool :=
  match l with
  | [] => true
  | x :: t => negb (existsb (str_eqb x) t) && nodup_strs t
  end.

(* every reserved role at most once, body names pairwise different *)
Definition unique_roles (m : list field) : bool :=
  forallb (fun r => Nat.leb (count_role r m) 1)
          [RKey; RValue; RExpireAt; RCreatedBy; RCreatedAt; RUpdatedBy; RUpdatedAt]
  && nodup_strs (map body_name (body_fields m)).

(* Is a metadata instant preserved by the gateway?  createdAt / updatedAt: int64 nanoseconds in
   (0, 2^63).  expireAt: accepted by isValidTimestamp (seconds > 0 or nanos > 0) and inside the
   int64-nanosecond range [-2^63, 2^63) - so a pre-epoch expiry with a nanosecond part is kept. *)
Definition meta_time_kept (r : role) (s : Z) (n : N) : bool :=
  let z := (s * 1000000000 + Z.of_N n)%Z in
  match r with
  | RExpireAt => ((0 <? s)%Z || (0 <? n)) && (-9223372036854775808 <=? z)%Z && (z <=? 9223372036854775807)%Z
  | _ => (0 <? z)%Z && (z <? 9223372036854775808)%Z
  end.

(* what an instant that is not kept may legitimately (per the recorded finding) come back as:
   dropped (zero time), or - expireAt only - saturated to the end of the int64-nanosecond range *)
Definition meta_time_lost_as (r : role) (s : Z) (n : N) (got : value) : bool :=
  value_eqb got (VTime zero_time_sec 0)
  || match r with
     | RExpireAt =>
         let z := (s * 1000000000 + Z.of_N n)%Z in
         ((9223372036854775807 <? z)%Z && value_eqb got (VTime 9223372036 854775807))
         || ((z <? -9223372036854775808)%Z && value_eqb got (VTime (-9223372037) 145224192))
     | _ => false
     end.

(* classification of one differing field: 0 = equal *)
Definition field_diff (catalog : bool) (f : field) (got : value) : N :=
  let v := f_val f in
  if value_eqb (canon v) (canon got) then 0
  else
    let r := if catalog then frole f else RValue in
    match r, v, got with
    | RNone, _, _ => 0                                           (* not part of the persisted model *)
    | RValue, VTime s n, VTime s' 0 => if Z.eqb s s' && negb (N.eqb n 0) then 10 else 2
    | RValue, VStruct _, VStruct 0 => 11
    | (RExpireAt | RCreatedAt | RUpdatedAt), VTime s n, VTime _ _ =>
        if meta_time_kept r s n then 2 else if meta_time_lost_as r s n got then 12 else 2
    | _, _, _ => 2
    end.

Fixpoint diffs (catalog : bool) (m : list field) (got : list value) : list N :=
  match m, got with
  | f :: m', g :: got' => field_diff catalog f g :: diffs catalog m' got'
  | [], [] => []
  | _, _ => [2]
  end.

Definition oracle (catalog : bool) (m : list field) (r : obs_read) : N :=
  match r with
  | ReadVals got =>
      let ds := filter (fun d => negb (N.eqb d 0)) (diffs catalog m got) in
      match ds with
      | [] => 0
      | d :: _ =>
          if existsb (N.eqb 2) ds
          then (if catalog && negb (unique_roles m) then 13 else 2)
          else d
      end
  | _ => if catalog && negb (unique_roles m) then 13 else 3
  end.

Definition check_case (c : case) : N :=
  match c with
  | CSaveRead api msgp m s r =>
      if N.eqb api 2 then
        match s with
        | SaveProf obs =>
            let viol := oracle false m r in
            if negb (N.eqb viol 0) then viol
            else match enc_profile sblob sym msgp m with
                 | Ok kvs =>
                     if list_eqb (fun p q => str_eqb (fst p) (fst q) && kv_eqb (snd p) (snd q)) kvs obs
                        && read_matches (prof_save_read sblob sym msgp m) r
                     then 0 else 1
                 | Err _ => 1
                 end
        | SaveErr e =>
            match enc_profile sblob sym msgp m with
            | Err e' => if err_eqb e e' then 0 else 1
            | Ok _ => 1
            end
        | SaveOk _ => 1
        end
      else
        match s with
        | SaveOk obs =>
            let viol := oracle true m r in
            if negb (N.eqb viol 0) then viol
            else match encode sblob sym false msgp m with
                 | Ok kv =>
                     (* with duplicate body names the msgpack library decodes one entry into fields of
                        different Go types; the symbolic codec does not define that, so only the
                        KeyValuePair is compared for such models (the oracle above still applies) *)
                     if kv_eqb kv obs
                        && (read_matches (decode sblob sym false (server_set sblob kv) m) r
                            || negb (unique_roles m))
                     then 0 else 1
                 | Err _ => 1
                 end
        | SaveErr e =>
            match encode sblob sym false msgp m with
            | Err e' => if err_eqb e e' then 0 else 1
            | Ok _ => 1
            end
        | SaveProf _ => 1
        end
  | CDecode t m r =>
      if read_matches (decode sblob sym false t m) r then 0 else 1
  | CInspect m o =>
      match inspect m, o with
      | Err _, InspErr => 0
      | Ok sh, InspOk n body =>
          let shn := match sh with ShKeyOnly => 0 | ShSingle => 1 | ShBody => 2 end in
          let mb := match sh with
                    | ShBody => map (fun f => (body_name f, fomit f)) (body_fields m)
                    | _ => []
                    end in
          if N.eqb shn n && list_eqb (fun p q => str_eqb (fst p) (fst q) && Bool.eqb (snd p) (snd q)) mb body
          then 0 else 1
      | _, _ => 1
      end
  end.

Definition check_all (cases : list case) : list verdict := check_cases check_case cases.

(* ---- short constructors for the generated case files ------------------------------------------- *)
Definition tI8 := SlI8 sblob.   Definition tI16 := SlI16 sblob. Definition tI32 := SlI32 sblob.
Definition tI64 := SlI64 sblob. Definition tU8 := SlU8 sblob.   Definition tU16 := SlU16 sblob.
Definition tU32 := SlU32 sblob. Definition tU64 := SlU64 sblob. Definition tF32 := SlF32 sblob.
Definition tF64 := SlF64 sblob. Definition tStr := SlStr sblob. Definition tBool := SlBool sblob.
Definition tBytes := SlBytes sblob.
Definition pStr := PStr sblob.  Definition pTyped := PTyped sblob. Definition pBool := PBool sblob.
Definition pTime := PTime sblob.
Definition mkT := Build_treasure sblob.
Definition F (name : str) (tag : option str) (v : value) : field := Build_field name tag v.
