(* Sdk/Tags.v — how the Go SDK reads a `hydraide:"..."` struct tag (model, no proofs).

   Strings are byte lists ([str := list N], every element < 256).  The reserved names come
   from Gen/C22Consts.v, i.e. from the constants compiled into sdk/go/hydraidego.

   Three pieces of SDK code interpret a Catalog tag:
     inspectCatalogModel                  (conversions_mapbody.go)  -> [inspect_role]
     convertCatalogModelToKeyValuePair    (conversions.go, encoder) -> [enc_roles]
     convertProtoTreasureToCatalogModel   (conversions.go, decoder) -> [dec_role]
   The encoder and decoder are chains of tests in source order.  The flag [sub] selects the
   test they use:  [sub = false]  exact tag head (text before the first comma) – the current
   code;  [sub = true]  strings.Contains on the whole tag – the code before the repair
   (kept as documentation: see C22_tag_dispatch_refuted_substring). *)
From HV Require Import Base.Prelude Gen.C22Consts.
Local Open Scope N_scope.

Definition str := list N.

Definition str_eqb (a b : str) : bool := list_eqb N.eqb a b.

Fixpoint prefixb (p s : str) : bool :=
  match p, s with
  | [], _ => true
  | a :: p', b :: s' => N.eqb a b && prefixb p' s'
  | _ :: _, [] => false
  end.

(* strings.Contains hay needle *)
Fixpoint containsb (needle hay : str) : bool :=
  match hay with
  | [] => prefixb needle []
  | _ :: t => prefixb needle hay || containsb needle t
  end.

Definition comma : N := 44.

(* parts[0] of strings.Split(tag, ",") *)
Fixpoint head_of (s : str) : str :=
  match s with
  | [] => []
  | c :: t => if N.eqb c comma then [] else c :: head_of t
  end.

(* strings.Split(s, ",") – never empty *)
Fixpoint split_comma (s : str) : list str :=
  match s with
  | [] => [[]]
  | c :: t =>
      if N.eqb c comma then [] :: split_comma t
      else match split_comma t with
           | h :: r => (c :: h) :: r
           | [] => [[c]]
           end
  end.

(* parts[1:] *)
Definition options_of (s : str) : list str := tl (split_comma s).

(* strings.TrimSpace restricted to the ASCII white space characters (tags in the harness are
   ASCII): \t \n \v \f \r and space. *)
Definition is_space (c : N) : bool :=
  N.eqb c 32 || (N.leb 9 c && N.leb c 13).

Fixpoint trim_left (s : str) : str :=
  match s with
  | c :: t => if is_space c then trim_left t else s
  | [] => []
  end.

Definition trim (s : str) : str := rev (trim_left (rev (trim_left s))).

(* parseHydraideTag: omitempty option present after the head *)
Definition has_omit (tag : str) : bool :=
  existsb (fun p => str_eqb (trim p) tag_omitempty) (options_of tag).

(* ---- roles -------------------------------------------------------------------------- *)

Inductive role :=
| RKey | RValue | RExpireAt | RCreatedBy | RCreatedAt | RUpdatedBy | RUpdatedAt
| RBody (name : str)
| RNone.

Definition role_eqb (a b : role) : bool :=
  match a, b with
  | RKey, RKey | RValue, RValue | RExpireAt, RExpireAt | RCreatedBy, RCreatedBy
  | RCreatedAt, RCreatedAt | RUpdatedBy, RUpdatedBy | RUpdatedAt, RUpdatedAt | RNone, RNone => true
  | RBody x, RBody y => str_eqb x y
  | _, _ => false
  end.

(* the metadata branches of the encoder/decoder loops, in source order *)
Definition meta_chain : list (str * role) :=
  [ (tag_expireAt, RExpireAt); (tag_createdBy, RCreatedBy); (tag_createdAt, RCreatedAt);
    (tag_updatedBy, RUpdatedBy); (tag_updatedAt, RUpdatedAt) ].

(* reservedHydraideTagNames as the model sees it (checked against the generated, sorted set
   in TagsProofs.reserved_set_matches_code) *)
Definition reserved_table : list (str * role) :=
  (tag_key, RKey) :: (tag_value, RValue) :: meta_chain.

Fixpoint lookup_name (n : str) (tbl : list (str * role)) : option role :=
  match tbl with
  | [] => None
  | (k, r) :: t => if str_eqb n k then Some r else lookup_name n t
  end.

(* inspectCatalogModel's view of one tag: empty head is ignored, `value` and the other
   reserved heads map to their slot, every other head is a map-body field of that name. *)
Definition inspect_role (tag : str) : role :=
  let h := head_of tag in
  match h with
  | [] => RNone
  | _ => match lookup_name h reserved_table with
         | Some r => r
         | None => RBody h
         end
  end.

(* one test of the encoder/decoder chains *)
Definition tag_test (sub : bool) (name tag : str) : bool :=
  if sub then containsb name tag else str_eqb (head_of tag) name.

(* the encoder's key test was `tag == "key"` on the whole tag before the repair *)
Definition enc_key_test (sub : bool) (tag : str) : bool :=
  if sub then str_eqb tag tag_key else str_eqb (head_of tag) tag_key.

Definition omit_test (sub : bool) (tag : str) : bool :=
  if sub then containsb tag_omitempty tag else has_omit tag.

Fixpoint first_match (sub : bool) (tag : str) (chain : list (str * role)) : option role :=
  match chain with
  | [] => None
  | (n, r) :: t => if tag_test sub n tag then Some r else first_match sub tag t
  end.

(* Encoder loop body: key branch (continue); value branch WITHOUT continue (falls through to
   the metadata tests); then the first metadata branch that matches.  The result lists the
   branches taken, in order. *)
Definition enc_roles (sub : bool) (tag : str) : list role :=
  if enc_key_test sub tag then [RKey]
  else (if tag_test sub tag_value tag then [RValue] else [])
       ++ match first_match sub tag meta_chain with Some r => [r] | None => [] end.

(* Decoder loop body: key, value, then the metadata branches; every branch continues. *)
Definition dec_role (sub : bool) (tag : str) : option role :=
  first_match sub tag ((tag_key, RKey) :: (tag_value, RValue) :: meta_chain).

(* what the reserved part of inspect's answer looks like to the encoder / decoder *)
Definition reserved_part (r : role) : list role :=
  match r with RBody _ | RNone => [] | _ => [r] end.
Definition reserved_opt (r : role) : option role :=
  match r with RBody _ | RNone => None | _ => Some r end.

(* tag -> bytes helper for examples *)
Definition no_reserved_substring (tag : str) : bool :=
  forallb (fun p => negb (containsb (fst p) tag)) reserved_table.
