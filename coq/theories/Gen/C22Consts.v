(* generated from the compiled hydraide packages by harness/cmd/genconsts - do not edit *)
From Coq Require Import List NArith.
Import ListNotations.
Local Open Scope N_scope.

(* "key" *)
Definition tag_key : list N := [107;101;121].
(* "value" *)
Definition tag_value : list N := [118;97;108;117;101].
(* "omitempty" *)
Definition tag_omitempty : list N := [111;109;105;116;101;109;112;116;121].
(* "expireAt" *)
Definition tag_expireAt : list N := [101;120;112;105;114;101;65;116].
(* "createdBy" *)
Definition tag_createdBy : list N := [99;114;101;97;116;101;100;66;121].
(* "createdAt" *)
Definition tag_createdAt : list N := [99;114;101;97;116;101;100;65;116].
(* "updatedBy" *)
Definition tag_updatedBy : list N := [117;112;100;97;116;101;100;66;121].
(* "updatedAt" *)
Definition tag_updatedAt : list N := [117;112;100;97;116;101;100;65;116].
(* sorted members of reservedHydraideTagNames: createdAt createdBy expireAt key updatedAt updatedBy value *)
Definition reserved_names_sorted : list (list N) := [[99;114;101;97;116;101;100;65;116]; [99;114;101;97;116;101;100;66;121]; [101;120;112;105;114;101;65;116]; [107;101;121]; [117;112;100;97;116;101;100;65;116]; [117;112;100;97;116;101;100;66;121]; [118;97;108;117;101]].
Definition msgpack_magic : list N := [199;0].
