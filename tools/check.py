#!/usr/bin/env python3
"""Driver: ./check <Cxx> [--tier quick|thorough] [--replay <file>] | ./check --setup | --list

Pipeline for one property (DESIGN.md section 3):
  1. (locked) regenerate harness/go.mod from /repo/go.mod, build the property's harness binary
     with -tags verif against /repo's working tree; regenerate coq/theories/Gen/*.v;
     regenerate _CoqProject; make the property's Props file and its check module (full .vo).
  2. re-check Props/<id>.v on its own with coqc, capturing Print Assumptions.
  3. run the harness -> cases_k.v (inputs + implementation observations) + meta.json.
  4. evaluate every cases_k.v with coqc (vm_compute inside Coq): list of (index, code).
  5. triage codes / Go-side oracle failures against props/<id>.json and known_findings.json,
     write replay files and evidence/<id>.json, print KNOWN-FINDING / VIOLATION lines.
"""
import sys, os, json, subprocess, time, re, glob, fcntl, hashlib, shutil, concurrent.futures

VERIF = os.path.dirname(os.path.dirname(os.path.abspath(__file__)))
REPO = os.environ.get("VERIF_REPO", "/repo")
CACHE = os.path.join(VERIF, ".cache")
COQ = os.path.join(VERIF, "coq")
HARNESS = os.path.join(VERIF, "harness")
BIN = os.path.join(CACHE, "bin")

def env():
    e = dict(os.environ)
    e["GOFLAGS"] = "-mod=mod"
    e["GOPROXY"] = "off"
    e.pop("GOTOOLCHAIN", None)
    e.pop("GOSUMDB", None)
    e["GOWORK"] = "off"
    e["CARGO_NET_OFFLINE"] = "true"
    return e

def sh(cmd, cwd=None, timeout=None, env_=None, check=False, stdin=None):
    t0 = time.time()
    try:
        p = subprocess.run(cmd, cwd=cwd, env=env_ or env(), stdout=subprocess.PIPE, stderr=subprocess.STDOUT,
                           timeout=timeout, text=True, errors="replace", input=stdin)
        out, rc = p.stdout, p.returncode
    except subprocess.TimeoutExpired as ex:
        out = (ex.stdout or "") if isinstance(ex.stdout, str) else (ex.stdout or b"").decode(errors="replace")
        out += "\n[timeout after %ss]" % timeout
        rc = 124
    if check and rc != 0:
        sys.stderr.write(out)
        raise SystemExit("command failed: %s" % (cmd,))
    return rc, out, time.time() - t0

class Lock:
    def __init__(self, name="lock"):
        os.makedirs(CACHE, exist_ok=True)
        self.path = os.path.join(CACHE, name)
    def __enter__(self):
        self.f = open(self.path, "w")
        fcntl.flock(self.f, fcntl.LOCK_EX)
        return self
    def __exit__(self, *a):
        fcntl.flock(self.f, fcntl.LOCK_UN)
        self.f.close()

def write_if_changed(path, text):
    try:
        if open(path).read() == text:
            return False
    except FileNotFoundError:
        pass
    os.makedirs(os.path.dirname(path), exist_ok=True)
    with open(path, "w") as f:
        f.write(text)
    return True

# ---------------------------------------------------------------- Go side

def gen_gomod():
    """harness/go.mod mirrors /repo/go.mod's requirements so that the harness builds offline
    against the working tree (replace => /repo)."""
    src = open(os.path.join(REPO, "go.mod")).read()
    gover = re.search(r"^go\s+(\S+)", src, re.M).group(1)
    reqs = re.findall(r"^require\s*\((.*?)^\)", src, re.M | re.S)
    single = re.findall(r"^require\s+(\S+\s+\S+)\s*$", src, re.M)
    lines = []
    for blk in reqs:
        for l in blk.strip().splitlines():
            l = l.strip()
            if l and not l.startswith("//") and "hydraide/hydraide/sdk/go/hydraidego" not in l:
                lines.append(l)
    lines += single
    sdk = open(os.path.join(REPO, "sdk/go/hydraidego/go.mod")).read()
    for blk in re.findall(r"^require\s*\((.*?)^\)", sdk, re.M | re.S):
        for l in blk.strip().splitlines():
            l = l.strip()
            mod = l.split()[0] if l else ""
            if l and not l.startswith("//") and all(mod != x.split()[0] for x in lines):
                lines.append(l)
    txt = "module verif/harness\n\ngo %s\n\nrequire (\n\tgithub.com/hydraide/hydraide v0.0.0\n\tgithub.com/hydraide/hydraide/sdk/go/hydraidego/v3 v3.0.0\n%s\n)\n\n" % (
        gover, "\n".join("\t" + l for l in lines))
    txt += "replace github.com/hydraide/hydraide => %s\n" % REPO
    txt += "replace github.com/hydraide/hydraide/sdk/go/hydraidego/v3 => %s/sdk/go/hydraidego\n" % REPO
    write_if_changed(os.path.join(HARNESS, "go.mod"), txt)
    sums = set()
    for p in ("go.sum", "sdk/go/hydraidego/go.sum", "go.work.sum"):
        try:
            sums.update(l for l in open(os.path.join(REPO, p)).read().splitlines() if l.strip())
        except FileNotFoundError:
            pass
    write_if_changed(os.path.join(HARNESS, "go.sum"), "\n".join(sorted(sums)) + "\n")

def build_harness(name, race=False):
    os.makedirs(BIN, exist_ok=True)
    out = os.path.join(BIN, name + ("-race" if race else ""))
    cmd = ["go", "build", "-tags", "verif", "-o", out]
    if race:
        cmd.append("-race")
    cmd.append("./cmd/" + name)
    rc, o, dt = sh(cmd, cwd=HARNESS, timeout=900)
    return rc, o, out

# ---------------------------------------------------------------- Coq side

def gen_coqproject():
    files = sorted(glob.glob(os.path.join(COQ, "theories", "**", "*.v"), recursive=True))
    rel = [os.path.relpath(f, COQ) for f in files]
    txt = "-Q theories HV\n-arg -w -arg -notation-overridden,-deprecated-hint-without-locality,-deprecated-instance-without-locality\n" + "\n".join(rel) + "\n"
    changed = write_if_changed(os.path.join(COQ, "_CoqProject"), txt)
    if changed or not os.path.exists(os.path.join(COQ, "Makefile")):
        sh(["coq_makefile", "-f", "_CoqProject", "-o", "Makefile"], cwd=COQ, check=True)

def coq_make(targets, timeout=3000):
    cmd = ["make", "-j16"] + targets
    return sh(cmd, cwd=COQ, timeout=timeout)

def mod_to_vo(mod):
    assert mod.startswith("HV.")
    return "theories/" + mod[3:].replace(".", "/") + ".vo"

def run_genconsts():
    """tools genconsts: constants/tables printed from the compiled packages (DESIGN 5.2)."""
    if not os.path.isdir(os.path.join(HARNESS, "cmd", "genconsts")):
        return 0, ""
    rc, o, binp = build_harness("genconsts")
    if rc != 0:
        return rc, o
    rc, o, _ = sh([binp, "--out", os.path.join(COQ, "theories", "Gen")], timeout=300)
    return rc, o

# ---------------------------------------------------------------- helpers

def load_prop(pid):
    p = os.path.join(VERIF, "props", pid + ".json")
    return json.load(open(p))

def known_findings():
    """known_findings.json plus props/*.findings.json (same record format)."""
    out = []
    files = [os.path.join(VERIF, "known_findings.json")] + sorted(glob.glob(os.path.join(VERIF, "props", "*.findings.json")))
    for f in files:
        try:
            out += json.load(open(f)).get("findings", [])
        except FileNotFoundError:
            pass
    return out

def parse_R(out):
    m = re.search(r"R\s*=\s*(.*?)\n\s*:\s*list", out, re.S)
    if not m:
        return None
    body = m.group(1)
    return [(int(a), int(b)) for a, b in re.findall(r"\(\s*(\d+)(?:%N)?\s*,\s*(\d+)(?:%N)?\s*\)", body)]

def eval_cases(rundir, timeout=1500):
    files = sorted(glob.glob(os.path.join(rundir, "cases_*.v")))
    results, errors = [], []
    def one(f):
        rc, o, dt = sh(["coqc", "-Q", os.path.join(COQ, "theories"), "HV", "-w", "-notation-overridden", f],
                       cwd=rundir, timeout=timeout)
        return f, rc, o
    with concurrent.futures.ThreadPoolExecutor(max_workers=12) as ex:
        for f, rc, o in ex.map(one, files):
            r = parse_R(o) if rc == 0 else None
            if r is None:
                errors.append((f, o[-3000:]))
            else:
                results += r
    return results, errors

def theorem_names(props_file):
    txt = open(props_file).read()
    txt = re.sub(r"\(\*.*?\*\)", "", txt, flags=re.S)
    return re.findall(r"^\s*(?:Theorem|Lemma|Corollary)\s+([A-Za-z0-9_']+)", txt, re.M)

def forbidden_scan():
    """No Admitted/admit/Axiom/Parameter/... anywhere in the development."""
    bad = []
    pat = re.compile(r"\b(Admitted|admit|Axiom|Axioms|Parameter|Parameters|Conjecture|Abort All|Unset Guard Checking|Unset Positivity Checking|Unset Universe Checking|bypass_check|Admit Obligations|type-in-type|impredicative-set)\b")
    for f in glob.glob(os.path.join(COQ, "theories", "**", "*.v"), recursive=True):
        txt = open(f).read()
        txt_nc = re.sub(r"\(\*.*?\*\)", lambda m: " " * len(m.group(0)), txt, flags=re.S)
        for m in pat.finditer(txt_nc):
            bad.append("%s: %s" % (os.path.relpath(f, VERIF), m.group(0)))
        # Variable/Hypothesis outside a section
        depth = 0
        for line in txt_nc.splitlines():
            s = line.strip()
            if re.match(r"Section\s+\w+", s):
                depth += 1
            elif re.match(r"End\s+\w+", s) and depth > 0:
                depth -= 1
            elif depth == 0 and re.match(r"(Variable|Variables|Hypothesis|Hypotheses|Context)\b", s):
                bad.append("%s: %s outside a Section" % (os.path.relpath(f, VERIF), s.split()[0]))
    return bad

# ---------------------------------------------------------------- main check

def prepare(pid, cfg, log):
    """step 1 (locked). returns dict(build_ok, proof_ok, model_ok, msgs)."""
    st = {"harness_ok": True, "proof_ok": True, "model_ok": True, "msgs": [], "bins": {}}
    with Lock():
        gen_gomod()
        rc, o = run_genconsts()
        if rc != 0:
            st["msgs"].append("genconsts failed:\n" + o[-2000:])
            st["harness_ok"] = False
        for h in cfg.get("harnesses", [cfg["harness"]] if cfg.get("harness") else []):
            rc, o, binp = build_harness(h, race=False)
            st["bins"][h] = binp
            if rc != 0:
                st["harness_ok"] = False
                st["msgs"].append("go build %s failed:\n%s" % (h, o[-4000:]))
        for h in cfg.get("race_harnesses", []):
            rc, o, binp = build_harness(h, race=True)
            st["bins"][h + "-race"] = binp
            if rc != 0:
                st["harness_ok"] = False
                st["msgs"].append("go build -race %s failed:\n%s" % (h, o[-4000:]))
        gen_coqproject()
        mods = [mod_to_vo(m) for m in cfg.get("check_modules", [cfg["check_module"]] if cfg.get("check_module") else [])]
        rc, o, dt = coq_make(mods)
        log.append("make %s: rc=%d %.1fs" % (" ".join(mods), rc, dt))
        if rc != 0:
            st["model_ok"] = False
            st["msgs"].append("model build failed:\n" + o[-4000:])
        rc, o, dt = coq_make(["theories/" + cfg["props"].replace(".v", ".vo")])
        log.append("make %s: rc=%d %.1fs" % (cfg["props"], rc, dt))
        st["make_cmd"] = "cd coq && coq_makefile -f _CoqProject -o Makefile && make -j16 theories/%s" % cfg["props"].replace(".v", ".vo")
        if rc != 0:
            st["proof_ok"] = False
            m = re.search(r'File "([^"]+)", line (\d+)', o)
            st["broken_at"] = "%s:%s" % (m.group(1), m.group(2)) if m else "unknown"
            st["msgs"].append("proof build failed:\n" + o[-4000:])
    return st

def check_props_file(cfg):
    """step 2: recompile Props file alone, capture Print Assumptions."""
    pf = os.path.join(COQ, "theories", cfg["props"])
    names = theorem_names(pf)
    tmpdir = os.path.join(CACHE, "props-" + cfg["id"])
    os.makedirs(tmpdir, exist_ok=True)
    dst = os.path.join(tmpdir, os.path.basename(pf))
    shutil.copy(pf, dst)
    rc, o, dt = sh(["coqc", "-Q", os.path.join(COQ, "theories"), "HV", "-w", "-notation-overridden", dst], cwd=tmpdir, timeout=1200)
    closed = len(re.findall(r"Closed under the global context", o))
    axioms = []
    for m in re.finditer(r"Axioms:\n((?:.+\n)+?)(?=\S|\Z)", o):
        axioms.append(m.group(1).strip())
    ax_names = sorted(set(re.findall(r"^([A-Za-z_][\w.']*)\s*:", "\n".join(axioms), re.M)))
    ok = rc == 0
    discharged = len(names) if ok else 0
    cmd = "coqc -Q coq/theories HV coq/theories/%s" % cfg["props"]
    return {"names": names, "ok": ok, "discharged": discharged, "closed": closed, "axioms": ax_names,
            "out": o[-3000:], "cmd": cmd, "dt": dt}

def classify(cfg, code):
    c = cfg.get("codes", {}).get(str(code))
    if c is None:
        return {"kind": "mismatch", "what": "unknown verdict code %d" % code}
    return c

def write_replay(pid, tag, payload):
    d = os.path.join(VERIF, "replays", pid)
    os.makedirs(d, exist_ok=True)
    tag = re.sub(r"[^A-Za-z0-9_.=-]", "_", tag)[:120]
    p = os.path.join(d, tag + ".json")
    with open(p, "w") as f:
        json.dump(payload, f, indent=1, default=str)
    return p

def run_harness(cfg, st, tier, seed, rundir, extra=None):
    shutil.rmtree(rundir, ignore_errors=True)
    os.makedirs(rundir, exist_ok=True)
    outs = []
    metas = []
    for i, h in enumerate(cfg.get("harnesses", [cfg["harness"]] if cfg.get("harness") else [])):
        sub = rundir if i == 0 else os.path.join(rundir, h)
        os.makedirs(sub, exist_ok=True)
        cmd = [st["bins"][h], "--seed", str(seed), "--tier", tier, "--out", sub] + (extra or [])
        to = cfg.get("timeout_quick", 900) if tier == "quick" else cfg.get("timeout_thorough", 7200)
        e = env()
        e["VERIF_DIR"] = VERIF
        e["VERIF_REPO"] = REPO
        e["VERIF_BIN"] = BIN
        rc, o, dt = sh(cmd, cwd=sub, timeout=to, env_=e)
        outs.append((h, rc, o, dt, sub))
    return outs

def explore(cfg, st, tier, seed, rundir, log):
    """steps 3+4: run the harness(es) on the real code, evaluate the cases in Coq."""
    r = {"meta": {"evaluations": 0, "distinct_nontrivial": 0, "samples": [], "histogram": {}, "traces": 0, "rules": [], "extra": {}},
         "verdicts": [], "impl_viol": [], "errors": [], "descrs": {}, "terms": {}, "seed": seed, "tier": tier}
    meta_all = r["meta"]
    outs = run_harness(cfg, st, tier, seed, rundir)
    for h, rc, o, dt, sub in outs:
        log.append("harness %s tier=%s seed=%d rc=%d %.1fs" % (h, tier, seed, rc, dt))
        if rc != 0 or not os.path.exists(os.path.join(sub, "meta.json")):
            r["errors"].append("harness %s exited %d:\n%s" % (h, rc, o[-4000:]))
            continue
        m = json.load(open(os.path.join(sub, "meta.json")))
        meta_all["evaluations"] += m["evaluations"]
        meta_all["distinct_nontrivial"] += m["distinct_nontrivial"]
        meta_all["samples"] += (m.get("samples") or [])[:3]
        meta_all["traces"] += m.get("traces_validated_against_impl", 0)
        if m.get("rule"):
            meta_all["rules"].append(m.get("rule", ""))
        for k, v in (m.get("histogram") or {}).items():
            meta_all["histogram"][h + ":" + k if len(outs) > 1 else k] = v
        meta_all["extra"].update(m.get("extra") or {})
        for v in m.get("impl_violations") or []:
            r["impl_viol"].append((h, v))
        try:
            r["descrs"][h] = json.load(open(os.path.join(sub, "descr.json")))
            r["terms"][h] = json.load(open(os.path.join(sub, "terms.json")))
        except FileNotFoundError:
            r["descrs"][h], r["terms"][h] = {}, {}
        t1 = time.time()
        res, errs = eval_cases(sub)
        log.append("coq evaluation of %s cases: %.1fs" % (h, time.time() - t1))
        for f, eo in errs:
            r["errors"].append("coqc %s failed:\n%s" % (os.path.relpath(f, VERIF), eo))
        r["verdicts"] += [(h, i, c) for i, c in res]
    return r

def triage(cfg, r):
    mismatches, found = [], []
    for h, i, c in r["verdicts"]:
        cl = classify(cfg, c)
        if cl["kind"] == "mismatch":
            mismatches.append((h, i, c, cl))
        else:
            found.append((h, i, cl.get("clause", "?"), cl.get("signature", "code%d" % c), cl.get("what", "")))
    for h, v in r["impl_viol"]:
        found.append((h, v["index"], v["clause"], v["signature"], v.get("detail", "")))
    return mismatches, found

def run_coqchk(cfg, log):
    """thorough tier: independent re-check of the property's compiled closure; axioms listed."""
    mod = "HV." + cfg["props"].replace(".v", "").replace("/", ".")
    rc, o, dt = sh(["coqchk", "-silent", "-o", "-Q", "theories", "HV", mod], cwd=COQ, timeout=3600)
    log.append("coqchk %s rc=%d %.0fs" % (mod, rc, dt))
    ax = re.search(r"\* Axioms:(.*?)(?:\n\s*\n|\* |\Z)", o, re.S)
    axioms = [l.strip() for l in (ax.group(1).splitlines() if ax else []) if l.strip() and "<none>" not in l]
    return rc, axioms, o[-1500:]

def do_check(pid, tier, seed, replay=None):
    t0 = time.time()
    cfg = load_prop(pid)
    log = []
    lines = []      # KNOWN-FINDING / VIOLATION lines
    violations = 0
    st = prepare(pid, cfg, log)
    kf = [k for k in known_findings() if k["property"] == pid]
    open_sigs = {k["signature"]: k for k in kf if k.get("status", "open") == "open"}
    pr = check_props_file(cfg) if st["proof_ok"] else {"names": theorem_names(os.path.join(COQ, "theories", cfg["props"])), "ok": False, "discharged": 0, "closed": 0, "axioms": [], "out": "", "cmd": "", "dt": 0}
    bad = forbidden_scan()
    proof_broken = (not st["proof_ok"]) or (not pr["ok"]) or bool(bad)
    rundir = os.path.join(CACHE, "run", "%s-%s" % (pid, tier))
    harness_err = []
    searched = 0
    if st["harness_ok"] and st["model_ok"]:
        r = explore(cfg, st, tier, seed, rundir, log)
    else:
        r = {"meta": {"evaluations": 0, "distinct_nontrivial": 0, "samples": [], "histogram": {}, "traces": 0, "rules": [], "extra": {}},
             "verdicts": [], "impl_viol": [], "errors": list(st["msgs"]), "descrs": {}, "terms": {}, "seed": seed, "tier": tier}
    meta_all, descrs, terms = r["meta"], r["descrs"], r["terms"]
    harness_err += r["errors"]
    mismatches, found = triage(cfg, r)
    src = {"seed": seed, "tier": tier}

    def split_known(found):
        new = {}
        known = []
        for h, i, clause, sig, what in found:
            if sig in open_sigs:
                known.append(sig)
            else:
                new.setdefault(sig, []).append((h, i, clause, what))
        return new, known
    new_viol, known_hit = split_known(found)

    # ---- a broken obligation (proof or correspondence) with no failing input yet: search for one
    if (mismatches or proof_broken) and not new_viol and st["harness_ok"] and st["model_ok"] and tier == "quick" \
            and os.environ.get("VERIF_NO_SEARCH") != "1":
        budget = cfg.get("search_budget_s", 420)
        ts = time.time()
        for k in range(1, 4):
            if time.time() - ts > budget:
                break
            s2 = seed + 7919 * k
            r2 = explore(cfg, st, "quick" if k < 3 else "thorough", s2, os.path.join(CACHE, "run", "%s-search" % pid), log)
            searched += r2["meta"]["evaluations"]
            m2, f2 = triage(cfg, r2)
            nv2, kh2 = split_known(f2)
            known_hit += kh2
            if nv2:
                new_viol, descrs, terms = nv2, r2["descrs"], r2["terms"]
                src = {"seed": s2, "tier": r2["tier"]}
                break

    reported_known = set()
    for sig in known_hit:
        if sig not in reported_known:
            reported_known.add(sig)
            lines.append("KNOWN-FINDING: property=%s %s (%s)" % (pid, open_sigs[sig]["what_fails"], sig))
    for sig, lst in new_viol.items():
        h, i, clause, what = lst[0]
        rp = write_replay(pid, "%s-seed%d-%s-%d" % (sig, src["seed"], src["tier"], i), {
            "property": pid, "kind": "property-violation", "clause": clause, "signature": sig, "what": what,
            "seed": src["seed"], "tier": src["tier"], "harness": h, "index": i, "count_in_run": len(lst),
            "case": descrs.get(h, {}).get(str(i)), "coq_term": terms.get(h, {}).get(str(i)),
            "replay_cmd": "./check %s --replay <this file>" % pid})
        lines.append("VIOLATION property=%s replay=%s" % (pid, os.path.relpath(rp, VERIF)))
        violations += 1

    if mismatches and not new_viol:
        h, i, c, cl = mismatches[0]
        rp = write_replay(pid, "mismatch-seed%d-%s-%d" % (seed, tier, i), {
            "property": pid, "kind": "correspondence-broken",
            "obligation": "implementation observations accepted by %s" % cfg.get("check_module", cfg.get("check_modules")),
            "what": cl.get("what", ""), "code": c, "seed": seed, "tier": tier, "harness": h, "index": i,
            "mismatching_cases": len(mismatches),
            "case": r["descrs"].get(h, {}).get(str(i)), "coq_term": r["terms"].get(h, {}).get(str(i)),
            "note": "model and implementation disagree on this case; the property oracle found no failing input in %d cases of this run plus %d cases of the follow-up search" % (meta_all["evaluations"], searched)})
        lines.append("VIOLATION property=%s replay=%s no-failing-input-found" % (pid, os.path.relpath(rp, VERIF)))
        violations += 1
    if proof_broken and not new_viol and not mismatches:
        rp = write_replay(pid, "proof-broken-%s" % tier, {
            "property": pid, "kind": "proof-obligation-broken", "broken_at": st.get("broken_at"),
            "theorems": pr["names"], "forbidden": bad, "messages": st["msgs"], "coqc": pr["out"],
            "note": "no failing input found in %d cases of this run plus %d cases of the follow-up search" % (meta_all["evaluations"], searched)})
        lines.append("VIOLATION property=%s replay=%s no-failing-input-found" % (pid, os.path.relpath(rp, VERIF)))
        violations += 1
    if harness_err and not violations:
        rp = write_replay(pid, "harness-error-%s" % tier, {"property": pid, "kind": "check-could-not-run", "messages": harness_err})
        lines.append("VIOLATION property=%s replay=%s no-failing-input-found" % (pid, os.path.relpath(rp, VERIF)))
        violations += 1

    # ---- thorough: independent checker
    chk_axioms = None
    if tier == "thorough" and not proof_broken and os.environ.get("VERIF_NO_COQCHK") != "1":
        with Lock("coqchk"):
            rc, chk_axioms, tail = run_coqchk(cfg, log)
        if rc != 0:
            rp = write_replay(pid, "coqchk-failed", {"property": pid, "kind": "proof-obligation-broken", "coqchk": tail})
            lines.append("VIOLATION property=%s replay=%s no-failing-input-found" % (pid, os.path.relpath(rp, VERIF)))
            violations += 1

    # ---- evidence
    tb = list(cfg.get("trusted_base", []))
    tb.append("Print Assumptions: " + ("Closed under the global context for all %d theorems" % pr["closed"] if not pr["axioms"] else "axioms used: " + ", ".join(pr["axioms"])))
    if chk_axioms is not None:
        tb.append("coqchk -o over the property's closure: axioms = " + (", ".join(chk_axioms) if chk_axioms else "none"))
    ev = {
        "property_id": pid, "tier": tier, "seed": seed, "level": cfg.get("level", "proof"),
        "coverage": {
            "obligations": len(pr["names"]), "discharged": pr["discharged"],
            "checker_cmd": st.get("make_cmd", "") + " && " + pr["cmd"],
            "trusted_base": tb,
            "theorems": [{"name": n, "status": ("refuted-witness" if "refuted" in n else "partial" if "partial" in n else "proved") if pr["ok"] else "not-checked"} for n in pr["names"]],
            "evaluations": meta_all["evaluations"], "distinct_nontrivial": meta_all["distinct_nontrivial"],
            "rule": " | ".join(meta_all["rules"]), "samples": meta_all["samples"][:4] or ["no cases run"],
            "traces_validated_against_impl": meta_all["traces"],
            "histogram": meta_all["histogram"], "extra": meta_all["extra"],
            "model_mismatches": len(mismatches), "known_findings_hit": sorted(reported_known),
            "search_cases_after_broken_obligation": searched,
            "exhaustive": bool(meta_all["extra"].get("exhaustive_complete", False)),
        },
        "assumptions": cfg.get("assumptions", []),
        "wall_s": round(time.time() - t0, 1), "violations": violations,
        "log": log,
    }
    os.makedirs(os.path.join(VERIF, "evidence"), exist_ok=True)
    with open(os.path.join(VERIF, "evidence", pid + ".json"), "w") as f:
        json.dump(ev, f, indent=1, default=str)
    for l in lines:
        print(l)
    print("%s %s: theorems %d/%d, cases %d (non-trivial %d), mismatches %d, violations %d, %.0fs" % (
        pid, tier, pr["discharged"], len(pr["names"]), meta_all["evaluations"], meta_all["distinct_nontrivial"],
        len(mismatches), violations, time.time() - t0))
    if violations and (harness_err or st["msgs"]):
        sys.stderr.write("\n".join(harness_err + st["msgs"])[-6000:] + "\n")
    return 1 if violations else 0

def do_replay(pid, path):
    cfg = load_prop(pid)
    rp = json.load(open(path))
    print(json.dumps({k: rp.get(k) for k in ("kind", "clause", "signature", "what", "seed", "tier", "index", "case")}, indent=1, default=str))
    log = []
    st = prepare(pid, cfg, log)
    term = rp.get("coq_term")
    rc_total = 0
    if term and st["model_ok"]:
        d = os.path.join(CACHE, "run", pid + "-replay")
        shutil.rmtree(d, ignore_errors=True)
        os.makedirs(d)
        mod = cfg.get("check_module") or cfg["check_modules"][0]
        with open(os.path.join(d, "cases_0.v"), "w") as f:
            f.write("From HV Require Import Base.Prelude %s.\nLocal Open Scope N_scope.\nDefinition cases := [\n %s\n].\nDefinition R := Eval vm_compute in (%s cases).\nPrint R.\n" % (mod[3:], term, cfg.get("check_fn", "check_all")))
        res, errs = eval_cases(d)
        print("recorded observations re-evaluated in Coq:", res if res else "accepted (no verdict)", errs if errs else "")
        if res:
            rc_total = 1
    if rp.get("seed") is not None and st["harness_ok"] and rp.get("index") is not None:
        print("re-running the implementation with seed=%s tier=%s ..." % (rp["seed"], rp["tier"]))
        rc = do_check(pid, rp["tier"], int(rp["seed"]))
        rc_total = rc_total or rc
    return rc_total

def do_setup():
    t0 = time.time()
    os.makedirs(CACHE, exist_ok=True)
    with Lock():
        gen_gomod()
        rc, o = run_genconsts()
        if rc != 0:
            print(o); return 1
        gen_coqproject()
        rc, o, dt = sh(["make", "-j16"], cwd=COQ, timeout=6000)
        print("coq build: rc=%d %.0fs" % (rc, dt))
        if rc != 0:
            print(o[-6000:]); return 1
        cmds = sorted(os.listdir(os.path.join(HARNESS, "cmd")))
    fails = 0
    def b(h):
        return h, build_harness(h)
    with Lock():
        for h in cmds:
            rc, o, _ = build_harness(h)
            if rc != 0:
                print("go build %s failed:\n%s" % (h, o[-3000:])); fails += 1
    bad = forbidden_scan()
    if bad:
        print("forbidden constructs:\n" + "\n".join(bad)); fails += 1
    print("setup done in %.0fs, failures=%d" % (time.time() - t0, fails))
    return 1 if fails else 0

def main():
    a = sys.argv[1:]
    if not a or a[0] in ("-h", "--help"):
        print(__doc__); return 0
    if a[0] == "--setup":
        return do_setup()
    if a[0] == "--list":
        for p in sorted(p for p in glob.glob(os.path.join(VERIF, "props", "C*.json")) if not p.endswith(".findings.json")):
            print(os.path.basename(p)[:-5])
        return 0
    pid = a[0]
    tier = os.environ.get("VERIF_TIER", "quick")
    seed = int(os.environ.get("VERIF_SEED", "1") or "1")
    replay = None
    i = 1
    while i < len(a):
        if a[i] == "--tier":
            tier = a[i + 1]; i += 2
        elif a[i] == "--seed":
            seed = int(a[i + 1]); i += 2
        elif a[i] == "--replay":
            replay = a[i + 1]; i += 2
        else:
            i += 1
    if replay:
        return do_replay(pid, replay)
    return do_check(pid, tier, seed)

if __name__ == "__main__":
    sys.exit(main())
