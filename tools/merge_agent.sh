#!/bin/sh
# tools/merge_agent.sh aN : merge agent branch into /verif main and cherry-pick its /repo commits
A=$1
set -e
cd /verif
if ! git merge --no-edit -q agent-$A >/dev/null 2>&1; then
  # generated / per-run files: always keep ours
  for f in $(git diff --name-only --diff-filter=U); do
    case $f in
      coq/_CoqProject|harness/go.mod) git rm -q --cached $f 2>/dev/null || true;;
      evidence/*|replays/*) git checkout --theirs -- $f 2>/dev/null || git checkout --ours -- $f; git add $f;;
    esac
  done
  if [ -n "$(git diff --name-only --diff-filter=U)" ]; then echo "VERIF MERGE CONFLICT"; git diff --name-only --diff-filter=U; exit 1; fi
  git commit -q --no-edit
fi
echo "verif merged: $(git log --oneline -1)"
cd /repo
for c in $(git log --reverse --format=%H main..agent-$A); do
  if git cherry-pick -x $c >/dev/null 2>&1; then echo "picked $(git log --format='%h %s' -1)"; else echo "REPO CHERRY-PICK CONFLICT at $c: $(git log --format=%s -1 $c)"; git status --short | grep -v '^??' ; exit 2; fi
done
