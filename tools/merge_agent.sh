#!/bin/sh
# tools/merge_agent.sh aN : merge agent branch into /verif main and cherry-pick its /repo commits
A=$1
set -e
cd /verif
git merge --no-edit -q agent-$A || { echo "VERIF MERGE CONFLICT"; git status --short | grep '^U\|^AA' ; exit 1; }
echo "verif merged: $(git log --oneline -1)"
cd /repo
for c in $(git log --reverse --format=%H main..agent-$A); do
  if git cherry-pick -x $c >/dev/null 2>&1; then echo "picked $(git log --format='%h %s' -1)"; else echo "REPO CHERRY-PICK CONFLICT at $c: $(git log --format=%s -1 $c)"; git status --short | grep -v '^??' ; exit 2; fi
done
