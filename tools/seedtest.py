#!/usr/bin/env python3
"""tools/seedtest.py [<seeded dir> ...]  (default: every /verif/seeded/*/)
For each seeded change: apply patch.diff to /repo's working tree, run the quick check of the
property it breaks (meta.json: property), undo the patch, and record whether the check
reported a VIOLATION. Results are printed and written to seeded/<id>/result.json.
Never commits anything in /repo."""
import sys, os, json, subprocess, glob, time
V = os.path.dirname(os.path.dirname(os.path.abspath(__file__)))
dirs = sys.argv[1:] or sorted(glob.glob(os.path.join(V, "seeded", "*", "")))
def git(*a):
    return subprocess.run(["git", "-C", "/repo"] + list(a), capture_output=True, text=True)
if git("status", "--porcelain").stdout.strip():
    sys.exit("/repo working tree is not clean")
rows = []
for d in dirs:
    d = d.rstrip("/")
    meta = json.load(open(os.path.join(d, "meta.json")))
    props = meta["property"] if isinstance(meta["property"], list) else [meta["property"]]
    patch = os.path.abspath(os.path.join(d, "patch.diff"))
    r = git("apply", "--check", patch)
    if r.returncode != 0:
        rows.append((os.path.basename(d), props, "patch does not apply", ""))
        continue
    git("apply", patch)
    try:
        for pid in props + meta.get("also_check", []):
            t0 = time.time()
            e = dict(os.environ); e["VERIF_NO_SEARCH"] = e.get("VERIF_NO_SEARCH", "0")
            p = subprocess.run([os.path.join(V, "check"), pid, "--tier", "quick"], capture_output=True, text=True, cwd=V, env=e)
            viol = [l for l in p.stdout.splitlines() if l.startswith("VIOLATION")]
            rows.append((os.path.basename(d), pid, "CAUGHT" if p.returncode == 1 and viol else "missed (exit %d)" % p.returncode,
                         (viol[0] if viol else p.stdout.strip().splitlines()[-1] if p.stdout.strip() else "") + " [%.0fs]" % (time.time() - t0)))
    finally:
        git("checkout", "--", ".")
        subprocess.run(["git", "-C", "/repo", "clean", "-fdq", "--", "app", "sdk"], capture_output=True)
    res = [{"seed": a, "property": b, "result": c, "detail": e_} for a, b, c, e_ in rows if a == os.path.basename(d)]
    json.dump(res, open(os.path.join(d, "result.json"), "w"), indent=1)
for r in rows:
    print("%-28s %-6s %-22s %s" % r)
