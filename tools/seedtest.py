#!/usr/bin/env python3
"""tools/seedtest.py [--lanes N] [--tier quick] [<seeded dir> ...]   (default: every /verif/seeded/*/)

For each seeded change: apply patch.diff to a working tree of hydraide, run the quick check of the
property it breaks (meta.json: property [+ also_check]), undo the patch, and record whether the
check reported a VIOLATION. Results are printed and written to seeded/<id>/result.json.

--lanes 1 (default): uses /repo itself and /verif itself (git apply ... git checkout -- .); nothing is
ever committed there. --lanes N>1: N scratch lanes under /tmp/seedlanes/<k>/{verif,repo} (detached
worktrees of the committed /verif HEAD and /repo HEAD; removed afterwards) run in parallel with
VERIF_REPO pointing at the lane's repo copy."""
import sys, os, json, subprocess, glob, time, threading, queue, shutil
V = os.path.dirname(os.path.dirname(os.path.abspath(__file__)))
args = sys.argv[1:]
lanes, tier = 1, "quick"
while args and args[0].startswith("--"):
    if args[0] == "--lanes":
        lanes = int(args[1]); args = args[2:]
    elif args[0] == "--tier":
        tier = args[1]; args = args[2:]
    else:
        sys.exit("unknown option " + args[0])
dirs = [os.path.abspath(d.rstrip("/")) for d in (args or sorted(glob.glob(os.path.join(V, "seeded", "*", ""))))]

def git(repo, *a):
    return subprocess.run(["git", "-C", repo] + list(a), capture_output=True, text=True)

def run_one(d, verif, repo):
    meta = json.load(open(os.path.join(d, "meta.json")))
    props = meta["property"] if isinstance(meta["property"], list) else [meta["property"]]
    patch = os.path.join(d, "patch.diff")
    rows = []
    if git(repo, "apply", "--check", patch).returncode == 0:
        git(repo, "apply", patch)
    else:
        # later add-only hook lines may have shifted the context: retry with fuzz
        pr = subprocess.run(["patch", "-p1", "-F3", "-s", "--no-backup-if-mismatch", "-i", patch], cwd=repo, capture_output=True, text=True)
        if pr.returncode != 0:
            git(repo, "checkout", "--", ".")
            subprocess.run(["git", "-C", repo, "clean", "-fdq", "--", "app", "sdk"], capture_output=True)
            return [(os.path.basename(d), props[0], "patch does not apply", "")]
    try:
        for pid in props + meta.get("also_check", []):
            t0 = time.time()
            e = dict(os.environ); e["VERIF_REPO"] = repo
            p = subprocess.run([os.path.join(verif, "check"), pid, "--tier", tier], capture_output=True, text=True, cwd=verif, env=e)
            viol = [l for l in p.stdout.splitlines() if l.startswith("VIOLATION")]
            last = p.stdout.strip().splitlines()[-1] if p.stdout.strip() else ""
            detail = (viol[0] if viol else last)
            if viol:
                try:
                    rp = json.load(open(os.path.join(verif, viol[0].split("replay=")[1].split()[0])))
                    detail += " {kind=%s sig=%s}" % (rp.get("kind"), rp.get("signature", rp.get("what", ""))[:80])
                except Exception:
                    pass
            rows.append((os.path.basename(d), pid, "CAUGHT" if p.returncode == 1 and viol else "missed (exit %d)" % p.returncode,
                         detail + " [%.0fs]" % (time.time() - t0)))
    finally:
        git(repo, "checkout", "--", ".")
        subprocess.run(["git", "-C", repo, "clean", "-fdq", "--", "app", "sdk"], capture_output=True)
    json.dump([{"seed": a, "property": b, "result": c, "detail": e_} for a, b, c, e_ in rows], open(os.path.join(d, "result.json"), "w"), indent=1)
    return rows

allrows = []
if lanes <= 1:
    if git("/repo", "status", "--porcelain").stdout.strip():
        sys.exit("/repo working tree is not clean")
    for d in dirs:
        allrows += run_one(d, V, "/repo")
else:
    base = "/tmp/seedlanes"
    shutil.rmtree(base, ignore_errors=True)
    q = queue.Queue()
    for d in dirs:
        q.put(d)
    lock = threading.Lock()
    def worker(k):
        lv, lr = os.path.join(base, str(k), "verif"), os.path.join(base, str(k), "repo")
        os.makedirs(os.path.join(base, str(k)), exist_ok=True)
        subprocess.run(["git", "-C", V, "worktree", "add", "-q", "--detach", lv, "HEAD"], check=True)
        subprocess.run(["git", "-C", "/repo", "worktree", "add", "-q", "--detach", lr, "HEAD"], check=True)
        try:
            while True:
                try:
                    d = q.get_nowait()
                except queue.Empty:
                    break
                rows = run_one(d, lv, lr)
                with lock:
                    allrows.extend(rows)
                    for r in rows:
                        print("%-34s %-5s %-20s %s" % r, flush=True)
        finally:
            subprocess.run(["git", "-C", V, "worktree", "remove", "--force", lv])
            subprocess.run(["git", "-C", "/repo", "worktree", "remove", "--force", lr])
    ts = [threading.Thread(target=worker, args=(k,)) for k in range(lanes)]
    [t.start() for t in ts]; [t.join() for t in ts]
    shutil.rmtree(base, ignore_errors=True)
    print("----")
for r in sorted(allrows):
    print("%-34s %-5s %-20s %s" % r)
c = sum(1 for r in allrows if r[2] == "CAUGHT")
print("caught %d of %d" % (c, len(allrows)))
