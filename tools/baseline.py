#!/usr/bin/env python3
"""Run the repository's pinned test suite (guard OFF) and compare with BASELINE.json's stable_pass list.
usage: tools/baseline.py [repo_dir]   exit 0 iff every stable test still passes."""
import json, subprocess, sys, os, ast
repo = sys.argv[1] if len(sys.argv) > 1 else "/repo"
b = json.load(open("/root/.vp/BASELINE.json"))
stable = b["stable_pass"]
if isinstance(stable, str):
    stable = ast.literal_eval(stable)
stable = set(stable)
def clean():
    # Go tests run without HYDRAIDE_ROOT_PATH leave ignored data/ and settings/ directories next to
    # the test packages; stale ones make TestGatewayPatch* fail on the next run
    subprocess.run(["git", "-C", repo, "clean", "-fdXq", "--", "app", "sdk", "tests"], capture_output=True)
clean()
passed, failed = set(), set()
env = dict(os.environ); env["GOPROXY"] = "off"; env.pop("GOFLAGS", None)
for mod in [".", "sdk/go/hydraidego"]:
    p = subprocess.Popen(["go", "test", "-json", "-vet=off", "-count=1", "-timeout", "25m", "./..."],
                         cwd=os.path.join(repo, mod), env=env, stdout=subprocess.PIPE, stderr=subprocess.STDOUT, text=True)
    for line in p.stdout:
        try:
            e = json.loads(line)
        except Exception:
            continue
        if e.get("Test") and e.get("Action") in ("pass", "fail"):
            name = "%s::%s" % (e["Package"], e["Test"])
            (passed if e["Action"] == "pass" else failed).add(name)
    p.wait()
missing = sorted(stable - passed)
# timing-sensitive tests can fail when the machine is loaded: retry the missing ones alone, twice
for attempt in range(2):
    if not missing:
        break
    bypkg = {}
    for m in missing:
        pkg, t = m.split("::", 1)
        bypkg.setdefault(pkg, set()).add(t.split("/")[0])
    for pkg, tests in bypkg.items():
        sub = "sdk/go/hydraidego" if "/sdk/go/hydraidego" in pkg else "."
        rel = pkg.split("hydraidego/v3", 1)[1] if sub != "." else pkg.split("github.com/hydraide/hydraide", 1)[1]
        p = subprocess.Popen(["go", "test", "-json", "-vet=off", "-count=1", "-p", "1", "-timeout", "25m", "-run", "^(" + "|".join(sorted(tests)) + ")$", "./" + rel.lstrip("/")],
                             cwd=os.path.join(repo, sub), env=env, stdout=subprocess.PIPE, stderr=subprocess.STDOUT, text=True)
        for line in p.stdout:
            try:
                e = json.loads(line)
            except Exception:
                continue
            if e.get("Test") and e.get("Action") == "pass":
                passed.add("%s::%s" % (e["Package"], e["Test"]))
        p.wait()
    missing = sorted(stable - passed)
clean()
print("stable=%d passed=%d failed=%d stable-missing=%d" % (len(stable), len(passed), len(failed), len(missing)))
for m in missing[:40]:
    print("  NOT PASSING:", m, "(failed)" if m in failed else "(not run)")
sys.exit(1 if missing else 0)
