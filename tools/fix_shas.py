#!/usr/bin/env python3
"""Findings files name fix: commits by the sha they had on the worker branch; /repo main holds them
as cherry-picks (-x). Rewrite every 'commit' (and the sha inside 'line') to the sha on /repo main."""
import json, glob, os, re, subprocess
V = os.path.dirname(os.path.dirname(os.path.abspath(__file__)))
log = subprocess.run(["git", "-C", "/repo", "log", "main", "--format=%H%x00%B%x01"], capture_output=True, text=True).stdout
m = {}
mains = set()
for ent in log.split("\x01"):
    if "\x00" not in ent: continue
    h, body = ent.strip().split("\x00", 1)
    mains.add(h)
    for o in re.findall(r"cherry picked from commit ([0-9a-f]{40})", body):
        m[o] = h
def remap(s):
    s = s.strip()
    for o, h in m.items():
        if o.startswith(s):
            # follow chains
            while h in m: h = m[h]
            return h[:7]
    for h in mains:
        if h.startswith(s): return h[:7]
    return None
n = 0
for f in [os.path.join(V, "known_findings.json")] + sorted(glob.glob(os.path.join(V, "props", "*.findings.json"))):
    d = json.load(open(f)); ch = False
    for x in d.get("findings", []):
        c = x.get("commit")
        if c:
            r = remap(c)
            if r and r != c:
                if x.get("line"): x["line"] = x["line"].replace(c, r)
                x["commit"] = r; ch = True; n += 1
            elif not r:
                print("unmapped", f, c)
    if ch: json.dump(d, open(f, "w"), indent=1)
print("remapped", n)
