#!/usr/bin/env python3
"""Regenerate MANIFEST.json from props/*.json (one entry per claimed property)."""
import json, glob, os, subprocess
V = os.path.dirname(os.path.dirname(os.path.abspath(__file__)))
props = [json.loads(l) for l in open(os.path.join(V, "properties.jsonl"))]
claimed = {}
for p in sorted(p for p in glob.glob(os.path.join(V, "props", "C*.json")) if not p.endswith(".findings.json")):
    c = json.load(open(p))
    if c.get("claimed", True):
        claimed[c["id"]] = c
hooks = subprocess.run(["git", "-C", "/repo", "log", "--format=%H %s"], capture_output=True, text=True).stdout.splitlines()
hook_commits = [l.split()[0] for l in hooks if " verif hook" in l or l.split(" ", 1)[1].startswith("verif hook")]
base = json.load(open("/root/.vp/BASELINE.json"))
m = {
    "version": 1,
    "setup_cmd": "./check --setup",
    "hooks": {
        "guard": "verif",
        "enable": "go build -tags verif (Go build tag; hook files are //go:build verif, call sites go through app/verifhook whose !verif variant is empty)",
        "baseline_off_cmd": base["cmd"],
        "source_commits": hook_commits,
        "add_only": True,
    },
    "engines": [
        {"name": "coq-model", "path": "coq/", "serves_properties": sorted(claimed), "kind_free_text": "Coq 8.16.1 models + theorems (Props/Cxx.v), full .vo build via coq_makefile"},
        {"name": "correspondence", "path": "harness/", "serves_properties": sorted(claimed), "kind_free_text": "Go harness built against /repo with -tags verif; observations evaluated by the Coq model with vm_compute (tools/check.py)"},
    ],
    "checks": [],
    "notes": "All checks: ./check <id> --tier quick|thorough. Known findings: known_findings.json. Design: DESIGN.md.",
    "not_applicable": [],
}
for p in props:
    pid = p["id"]
    if pid in claimed:
        c = claimed[pid]
        m["checks"].append({
            "property_id": pid,
            "quick_cmd": "./check %s --tier quick" % pid,
            "thorough_cmd": "./check %s --tier thorough" % pid,
            "evidence_file": "evidence/%s.json" % pid,
            "replay_cmd_template": "./check %s --replay {path}" % pid,
            "engine": "coq-model+correspondence",
            "level_claimed": {"category": "proof", "text": c.get("level_text", ""), "design_ref": c.get("design_ref", "DESIGN.md section 7, " + pid)},
            "level_note": c.get("level_note", "; ".join(c.get("trusted_base", []))),
            "technique": c.get("technique", "machine-checked proof in Coq of a hand-written model + checked correspondence (differential / trace acceptance) against the Go code"),
        })
    else:
        m["not_applicable"].append({"property_id": pid, "reason": "not claimed yet: the Coq model, theorems and correspondence harness for this property are not built in the committed tree (work in progress, see DESIGN.md section 7 for the plan)"})
json.dump(m, open(os.path.join(V, "MANIFEST.json"), "w"), indent=1)
print("claimed:", sorted(claimed))
