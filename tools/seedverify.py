#!/usr/bin/env python3
"""tools/seedverify.py <candidate dir> [--no-baseline]
Confirms a seeded change in a scratch worktree of /repo (removed afterwards):
 1. patch.diff applies to /repo HEAD and the project builds;
 2. the demonstration (demo_test.go placed in meta.demo_package_dir, run with `go test -run <meta.demo_run or .> `) FAILS with the change;
 3. the pinned baseline suite still passes with the change;
 4. the demonstration PASSES without the change.
Writes verify.json into the candidate dir and prints a verdict."""
import sys, os, json, subprocess, shutil, time
V = os.path.dirname(os.path.dirname(os.path.abspath(__file__)))
d = os.path.abspath(sys.argv[1]); nob = "--no-baseline" in sys.argv
meta = json.load(open(os.path.join(d, "meta.json")))
wt = "/tmp/seedverify-%d" % os.getpid()
env = dict(os.environ); env["GOPROXY"] = "off"; env.pop("GOFLAGS", None)
def run(cmd, cwd, to=1500):
    p = subprocess.run(cmd, cwd=cwd, env=env, capture_output=True, text=True, timeout=to)
    return p.returncode, (p.stdout + p.stderr)[-3000:]
res = {}
subprocess.run(["git", "-C", "/repo", "worktree", "add", "-q", "--detach", wt, "HEAD"], check=True)
try:
    mod = meta.get("demo_module_dir", ".")
    pkg = meta["demo_package_dir"]
    demos = [f for f in os.listdir(d) if f.endswith("_test.go") or (f.endswith(".go") and f.startswith("demo"))]
    def put():
        for f in demos:
            shutil.copy(os.path.join(d, f), os.path.join(wt, pkg, f if f.endswith("_test.go") else f))
    def demo():
        rel = os.path.relpath(os.path.join(wt, pkg), os.path.join(wt, mod))
        return run(["go", "test", "-count=1", "-vet=off", "-run", meta.get("demo_run", "."), "./" + rel], os.path.join(wt, mod), 900)
    rc, o = run(["git", "apply", os.path.join(d, "patch.diff")], wt)
    if rc != 0:
        rc, o = run(["patch", "-p1", "-F3", "-s", "--no-backup-if-mismatch", "-i", os.path.join(d, "patch.diff")], wt)
    res["applies"] = rc == 0
    if rc != 0:
        res["apply_out"] = o
    else:
        rc, o = run(["go", "build", "./..."], wt); res["builds"] = rc == 0
        put(); rc, o = demo(); res["demo_fails_with_change"] = rc != 0; res["demo_with_change_tail"] = o[-600:]
        for f in demos: os.remove(os.path.join(wt, pkg, f))
        if not nob:
            rc, o = run([sys.executable, os.path.join(V, "tools", "baseline.py"), wt], V, 3000)
            res["baseline_passes_with_change"] = rc == 0; res["baseline_tail"] = o[-400:]
        run(["git", "checkout", "--", "."], wt); run(["git", "clean", "-fdq"], wt)
        put(); rc, o = demo(); res["demo_passes_without_change"] = rc == 0; res["demo_without_change_tail"] = o[-300:]
finally:
    subprocess.run(["git", "-C", "/repo", "worktree", "remove", "--force", wt])
ok = res.get("applies") and res.get("builds") and res.get("demo_fails_with_change") and res.get("demo_passes_without_change") and (nob or res.get("baseline_passes_with_change"))
res["confirmed"] = bool(ok); res["at"] = time.strftime("%Y-%m-%dT%H:%M:%S"); res["repo_head"] = subprocess.run(["git", "-C", "/repo", "rev-parse", "--short", "HEAD"], capture_output=True, text=True).stdout.strip()
json.dump(res, open(os.path.join(d, "verify.json"), "w"), indent=1)
print(json.dumps({k: v for k, v in res.items() if not k.endswith("_tail")}, indent=1))
sys.exit(0 if ok else 1)
