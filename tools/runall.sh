#!/bin/sh
# tools/runall.sh [tier] : every claimed property's check in sequence; summary lines on stdout
T=${1:-quick}
cd "$(dirname "$0")/.."
for p in $(python3 -c "import json; print(' '.join(c['property_id'] for c in json.load(open('MANIFEST.json'))['checks']))"); do
  ./check $p --tier $T 2>&1 | grep -E "^(VIOLATION|C[0-9]+ (quick|thorough):)" 
done
